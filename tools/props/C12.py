"""C12 — a failed or reverted call frame leaves no trace (spec/Journal.tla, harness/cmd/journaldrv).

Stages (independent ones run concurrently):
  A  design: TLC exhaustive on the journal-level model (RevertRestores, SiblingsUntouched, AlwaysRevertible)
  A2 the same with transaction boundaries (Finalize(true) + Prepare) and block boundaries (Commit + reopen)
  B  spec -> code, journal level: every bounded behaviour ending in a revert, replayed on a real state.StateDB
  B2 the same for behaviours that cross a transaction / block boundary (tombstones, pending objects, reload)
  C  spec -> code, EVM level: every bounded frame program, compiled to bytecode, run by the real vm.EVM;
     a sample of the implementation traces is validated back by spec/JournalTrace.tla
  C2 the same for several transactions on one StateDB / EVM / block batch (Finalize, Prepare, EVM.Reset between them)
  D  long EVM-level programs from TLC simulation (seeded), replayed + validated the same way
  D2 long multi-transaction EVM-level programs from TLC simulation
  E  code -> spec: seeded long random StateDB call sequences with transaction and block boundaries, validated by
     spec/JournalTrace.tla
  F  the minimal programs of the known findings with the concrete values observed (evidence only)
"""
import json, os, subprocess
from concurrent.futures import ThreadPoolExecutor
from pathlib import Path
import vlib
from vlib import Broken

ASSUMPTIONS = [
    "gas accounting is outside the property; the refund counter is compared exactly at the StateDB level and by digest at the EVM level",
    "go-quai never adds access-list entries at run time (they are enforced, not warmed); the EVM-level harness bypasses the check, "
    "the access-list journal entries are exercised at the StateDB level",
    "a create frame's increment of the creator nonce happens before the snapshot (as in go-ethereum) and is not an effect of the frame",
    "the trie, the memory database and TLC are trusted; addresses are fixed in-zone Quai addresses of zone 0-0",
    "EVM level: one contract per frame, operations SSTORE/TSTORE/LOG0/value CALL/ETX/lockup claim/SELFDESTRUCT/CREATE, endings "
    "STOP/REVERT/INVALID/out-of-gas/code-store-out-of-gas; CALLCODE/STATICCALL/CREATE2/CONVERT/UnwrapQi are not generated",
    "between two transactions the harness does what core/state_processor.go does around applyTransaction (ETX cache handed over, "
    "StateDB.Finalize(true), UndoCoinbasesDeleted after a failed transaction, StateDB.Prepare, EVM.Reset); gas purchase, nonce bump of the "
    "sender and fee payment (state_transition.go) are outside this check; a block boundary (journal level only) is StateDB.Commit(true) "
    "followed by state.New at the committed root on the same state database",
]


def build_driver():
    """Normally vlib.go_build.  For seeded-mutation demonstrations VERIF_C12_OVERLAY names a `go build -overlay`
    file that substitutes mutated copies of /repo files at build time, so that a regression can be tried
    without touching the shared /repo working tree (other checks build against it concurrently)."""
    ov = os.environ.get("VERIF_C12_OVERLAY")
    if not ov:
        return vlib.go_build("journaldrv")
    vlib.ensure_gosum()
    out = vlib.WORK / "bin" / "journaldrv-overlay"
    out.parent.mkdir(parents=True, exist_ok=True)
    p = subprocess.run(["go", "build", "-tags", "verif", "-overlay", ov, "-o", str(out), "./cmd/journaldrv"],
                       cwd=vlib.HARNESS, env=vlib.goenv(), capture_output=True, text=True)
    if p.returncode != 0:
        raise Broken("go build -overlay failed:\n" + p.stderr[-3000:])
    vlib.log("built journaldrv with overlay " + ov)
    return out


def write_behaviours(r, path):
    with open(path, "w") as f:
        for s in r.printed:
            f.write(s + "\n")
    return len(r.printed)


def sig_of(f):
    return {"level": f["level"], "kind": f["kind"], "diff": f["diff"], "cause": f["cause"]}


def replay_obj(f):
    return {"level": f["level"], "universe": f["universe"], "at": f["at"], "step": f["step"], "accounts": f.get("accounts"),
            "detail": f.get("detail"), "expected": f.get("expected"), "got": f.get("got"), "steps": f["steps"]}


def drv_replay(ctx, drv, level, universe, beh, tag, trace_mod=0, workers=8):
    res = ctx.work / ("replay-%s.json" % tag)
    args = [drv, "replay", "-level", level, "-universe", universe, "-in", beh, "-out", res, "-workers", workers]
    tr = None
    if trace_mod:
        tr = ctx.work / ("trace-%s.ndjson" % tag)
        args += ["-trace", tr, "-tracemod", trace_mod]
    vlib.run(args, timeout=6000, check=True)
    rj = json.loads(res.read_text())
    if rj["broken"]:
        raise Broken("journaldrv could not execute behaviours (%s): %s" % (tag, rj["broken"][:3]))
    return rj, tr


def validate_trace(ctx, cfg, trace_path, tag, deviations):
    """TLC evaluates the logged implementation states against the spec.  Returns (events, traces,
    unexplained deviations).  A deviation TLC prints is 'explained' when the driver's own oracle
    reported one for the same (trace, step) - it is then judged under the driver's signature."""
    text = Path(trace_path).read_text()
    rows = [json.loads(x) for x in text.splitlines() if x.strip()]
    if not rows:
        raise Broken("empty trace " + tag)
    t = vlib.tlc(ctx, "JournalTrace", cfg, workers=1, timeout=10000, tag=tag, files={"journaltrace.ndjson": text})
    if not t.ok:
        if t.violated:
            raise Broken("JournalTrace(%s): design invariant %s violated while following an implementation trace:\n%s"
                         % (tag, t.violated, t.out[-2500:]))
        raise Broken("JournalTrace(%s) did not accept the trace (event outside the interface contract, or TLC error):\n%s"
                     % (tag, (t.error or t.out)[-2500:]))
    start = {}
    for i, r in enumerate(rows):
        if r["op"] == "tracereset":
            start[r["trace"]] = i + 1          # 1-based line of the reset event
    known = set((d[0], d[1]) for d in (deviations or []))
    unexplained = []
    for p in t.printed:
        j = json.loads(p)
        step = j["line"] - start[j["trace"]] - 1
        if (j["trace"], step) not in known:
            lo = start[j["trace"]]
            unexplained.append((j, rows[lo:j["line"]]))
    return len(rows) - len(start), len(start), unexplained, len(t.printed)


def run(ctx):
    quick = ctx.quick
    drv = build_driver()
    cov = {}
    found = []          # (sig, replay_obj) collected by the stages, reported from the main thread

    def collect(rj):
        for f in (rj["findings"] or []):
            found.append((sig_of(f), replay_obj(f)))

    def unexplained_to_found(unx, level, universe):
        for j, prefix in unx:
            steps = [{k: e[k] for k in ("op", "a", "s", "v", "id")} for e in prefix]
            found.append(({"level": level, "kind": "trace-vs-spec", "diff": j["kind"], "cause": ""},
                          {"level": level, "universe": universe, "at": j["op"], "detail": "TLC (JournalTrace) found the logged "
                           "implementation state different from the specified one", "expected": j.get("exp"), "got": j.get("got"),
                           "steps": steps}))

    # ---- A: design-level exhaustive check
    def stage_a():
        out = {"states": 0, "transitions": 0, "tlc_cfg": [], "tlc_runs": {}}
        for cfg in (["MCJournal_small.cfg"] if quick else ["MCJournal_big.cfg", "MCJournal_deep.cfg"]):
            r = vlib.tlc_must_pass(ctx, "MCJournal", cfg, workers=8 if quick else 16, timeout=3000 if quick else 10000)
            vlib.log("A  TLC %s: %d distinct / %d generated, depth %d, %.0fs" % (cfg, r.distinct, r.generated, r.depth, r.wall))
            out["states"] += r.distinct
            out["transitions"] += r.generated
            out["tlc_cfg"].append(cfg)
            out["tlc_runs"][cfg] = {"distinct": r.distinct, "generated": r.generated, "depth": r.depth, "wall_s": round(r.wall, 1)}
        return out

    # ---- A2: design-level exhaustive check with transaction / block boundaries
    def stage_a2():
        out = {"tlc_runs": {}, "states": 0, "transitions": 0}
        for cfg in (["MCJournal_multitx_small.cfg"] if quick else ["MCJournal_multitx_small.cfg", "MCJournal_multitx_big.cfg"]):
            r = vlib.tlc_must_pass(ctx, "MCJournal", cfg, workers=6 if quick else 16, timeout=3000 if quick else 10000)
            vlib.log("A2 TLC %s: %d distinct / %d generated, depth %d, %.0fs" % (cfg, r.distinct, r.generated, r.depth, r.wall))
            out["states"] += r.distinct
            out["transitions"] += r.generated
            out["tlc_runs"][cfg] = {"distinct": r.distinct, "generated": r.generated, "depth": r.depth, "wall_s": round(r.wall, 1)}
        return out

    # ---- B / B2: journal-level behaviours on the real StateDB
    def stage_b(multitx=False):
        out = {}
        n_total = 0
        # *nv = same bounds without VIEW: behaviours that differ only in what was reverted earlier stay distinct
        if multitx:
            cfgs = [("MCJournal_multitx_emit.cfg", "j1")] if quick else [("MCJournal_multitx_emit.cfg", "j1"), ("MCJournal_multitx_emit2.cfg", "j1")]
        else:
            cfgs = ([("MCJournal_emit.cfg", "j1")] if quick else
                    [("MCJournal_emit.cfg", "j1"), ("MCJournal_emitnv.cfg", "j1"), ("MCJournal_emit3.cfg", "j2")])
        tagb = "B2" if multitx else "B "
        for cfg, uni in cfgs:
            r = vlib.tlc_must_pass(ctx, "MCJournal", cfg, workers=4 if quick else 8, timeout=3000 if quick else 10000)
            beh = ctx.work / ("beh-%s.ndjson" % cfg[:-4])
            n = write_behaviours(r, beh)
            if n < 1000:
                raise Broken("TLC emitted only %d journal behaviours (%s)" % (n, cfg))
            rj, _ = drv_replay(ctx, drv, "journal", uni, beh, cfg[:-4])
            if rj["behaviours"] != n:
                raise Broken("driver replayed %d of %d behaviours" % (rj["behaviours"], n))
            collect(rj)
            n_total += n
            out[cfg[:-4]] = {"behaviours": n, "clean": rj["clean"], "steps_compared": rj["steps"], "reverts_judged": rj["reverts_judged"],
                             "ops": rj["ops"], "tlc_states": r.distinct, "tlc_wall_s": round(r.wall, 1)}
            vlib.log("%s %s: %d behaviours (%d clean), %d steps, %d reverts judged" % (tagb, cfg, n, rj["clean"], rj["steps"], rj["reverts_judged"]))
            with open(beh) as f:
                for i, line in enumerate(f):
                    if i == (n // 2 if multitx else 0):
                        out.setdefault("sample", json.loads(line))
                        break
        out["n"] = n_total
        return out

    # ---- C: EVM-level behaviours on the real EVM, sample validated back by TLC
    def stage_c(multitx=False):
        out = {}
        n_total, validated = 0, 0
        if multitx:
            cfgs = ["MCJournal_multitx_evm.cfg"] if quick else ["MCJournal_multitx_evm.cfg", "MCJournal_multitx_evm3.cfg"]
        else:
            cfgs = ["MCJournal_evm.cfg"] if quick else ["MCJournal_evm.cfg", "MCJournal_evmnv.cfg", "MCJournal_evm32.cfg", "MCJournal_evm3.cfg"]
        tagc = "C2" if multitx else "C "
        for cfg in cfgs:
            r = vlib.tlc_must_pass(ctx, "MCJournal", cfg, workers=4 if quick else 8, timeout=3000 if quick else 10000)
            beh = ctx.work / ("beh-%s.ndjson" % cfg[:-4])
            n = write_behaviours(r, beh)
            if n < 1000:
                raise Broken("TLC emitted only %d EVM behaviours (%s)" % (n, cfg))
            mod = max(1, n // ((60 if multitx else 120) if quick else 400))
            rj, tr = drv_replay(ctx, drv, "evm", "evm", beh, cfg[:-4], trace_mod=mod)
            if rj["behaviours"] != n:
                raise Broken("driver replayed %d of %d behaviours" % (rj["behaviours"], n))
            collect(rj)
            ev, ntr, unx, nprinted = validate_trace(ctx, "JournalTraceEvm.cfg", tr, "JournalTraceEvm-" + cfg[:-4], rj["deviations"])
            unexplained_to_found(unx, "evm", "evm")
            n_total += n
            validated += ntr
            out[cfg[:-4]] = {"behaviours": n, "clean": rj["clean"], "steps_compared": rj["steps"], "frame_failures_judged": rj["reverts_judged"],
                             "ops": rj["ops"], "tlc_states": r.distinct, "traces_validated_by_TLC": ntr, "trace_events": ev,
                             "deviations_seen_by_TLC": nprinted}
            vlib.log("%s %s: %d programs (%d clean), %d failed frames judged; %d traces / %d events validated by TLC"
                     % (tagc, cfg, n, rj["clean"], rj["reverts_judged"], ntr, ev))
            with open(beh) as f:
                for i, line in enumerate(f):
                    if i == n // 2:
                        out.setdefault("sample", json.loads(line))
        out["n"], out["validated"] = n_total, validated
        return out

    # ---- D: long EVM-level programs (TLC simulation, seeded)
    def stage_d(multitx=False):
        num = (60 if quick else 1000)          # per simulation worker
        cfg, tag, depth = ("MCJournal_multitx_evmsim.cfg", "evmsim-multitx", 80) if multitx else ("MCJournal_evmsim.cfg", "evmsim", 60)
        r = vlib.tlc(ctx, "MCJournal", cfg, workers=4, timeout=3000, simulate="num=%d" % num, depth=depth, seed=ctx.seed, tag=tag)
        if not r.ok:
            raise Broken("TLC simulation failed: %s\n%s" % (r.violated, (r.error or r.out[-2000:])))
        beh = ctx.work / ("beh-%s.ndjson" % tag)
        n = write_behaviours(r, beh)
        if n < 50:
            raise Broken("TLC simulation emitted only %d behaviours" % n)
        mod = max(1, n // (40 if quick else 300))
        rj, tr = drv_replay(ctx, drv, "evm", "evml", beh, tag, trace_mod=mod)
        collect(rj)
        ev, ntr, unx, nprinted = validate_trace(ctx, "JournalTraceEvmL.cfg", tr, "JournalTraceEvmL-" + tag, rj["deviations"])
        unexplained_to_found(unx, "evm", "evml")
        longest = max((len(json.loads(x)) for x in open(beh)), default=0)
        vlib.log("%s simulation: %d programs (%d clean, longest %d steps, %d transaction boundaries); %d traces / %d events validated by TLC"
                 % ("D2" if multitx else "D ", n, rj["clean"], longest, rj["ops"].get("txend", 0), ntr, ev))
        return {"n": n, "clean": rj["clean"], "steps_compared": rj["steps"], "frame_failures_judged": rj["reverts_judged"], "longest": longest,
                "validated": ntr, "trace_events": ev, "ops": rj["ops"]}

    # ---- E: random StateDB call sequences, validated by TLC
    def stage_e():
        ntr, ln = (12, 300) if quick else (160, 400)
        tr = ctx.work / "trace-random.ndjson"
        res = ctx.work / "random.json"
        vlib.run([drv, "random", "-seed", ctx.seed, "-n", ntr, "-len", ln, "-depth", 5, "-out", tr, "-res", res], timeout=3000, check=True)
        rj = json.loads(res.read_text())
        for f in (rj["findings"] or []):
            f = dict(f, steps=[{k: s[k] for k in ("op", "a", "s", "v", "id")} for s in f["steps"]])
            found.append((sig_of(f), replay_obj(f)))
        ev, n, unx, nprinted = validate_trace(ctx, "JournalTrace.cfg", tr, "JournalTrace", rj["deviations"])
        unexplained_to_found(unx, "journal", "jt")
        nb = sum(1 for x in open(tr) if '"op":"txend"' in x or '"op":"blockend"' in x)
        vlib.log("E  random: %d traces, %d events (%d transaction / block boundaries), %d reverts judged; TLC printed %d deviations"
                 % (n, ev, nb, rj["reverts_judged"], nprinted))
        return {"traces": n, "events": ev, "boundaries": nb, "reverts_judged": rj["reverts_judged"], "deviations_seen_by_TLC": nprinted}

    def stage_f():
        rep = ctx.work / "scenarios.json"
        vlib.run([drv, "scenario", "-out", rep], timeout=600, check=True)
        return json.loads(rep.read_text())

    with ThreadPoolExecutor(max_workers=10) as ex:
        fut = {k: ex.submit(f) for k, f in (("a", stage_a), ("a2", stage_a2), ("b", stage_b), ("b2", lambda: stage_b(True)),
                                            ("c", stage_c), ("c2", lambda: stage_c(True)), ("d", stage_d), ("d2", lambda: stage_d(True)),
                                            ("e", stage_e), ("f", stage_f))}
        res = {k: v.result() for k, v in fut.items()}

    for sig, obj in found:
        vlib.report(ctx, sig, obj)

    a, b, c, d, e = res["a"], res["b"], res["c"], res["d"], res["e"]
    a2, b2, c2, d2 = res["a2"], res["b2"], res["c2"], res["d2"]
    cov.update(a)
    cov["states"] += a2["states"]
    cov["transitions"] += a2["transitions"]
    cov["tlc_cfg"] = a["tlc_cfg"] + list(a2["tlc_runs"])
    cov["tlc_runs"].update(a2["tlc_runs"])
    cov.update(
        journal_behaviours_replayed=b["n"] + b2["n"], evm_programs_replayed=c["n"] + d["n"] + c2["n"] + d2["n"],
        multi_transaction_journal_behaviours_replayed=b2["n"], multi_transaction_evm_programs_replayed=c2["n"] + d2["n"],
        evm_simulated_programs=d["n"] + d2["n"],
        longest_evm_program_steps=max(d["longest"], d2["longest"]),
        random_traces_validated_by_TLC=e["traces"], random_events=e["events"], random_boundaries=e["boundaries"],
        evm_traces_validated_by_TLC=c["validated"] + d["validated"] + c2["validated"] + d2["validated"],
        traces_validated_against_impl=b["n"] + c["n"] + d["n"] + b2["n"] + c2["n"] + d2["n"] + e["traces"],
        detail={"journal": {k: v for k, v in b.items() if k not in ("sample", "n")},
                "journal_multitx": {k: v for k, v in b2.items() if k not in ("sample", "n")},
                "evm": {k: v for k, v in c.items() if k not in ("sample", "n", "validated")},
                "evm_multitx": {k: v for k, v in c2.items() if k not in ("sample", "n", "validated")},
                "evm_simulation": {k: v for k, v in d.items() if k != "ops"},
                "evm_simulation_multitx": {k: v for k, v in d2.items() if k != "ops"}, "random": e},
        samples=[{"journal_behaviour_from_TLC": b.get("sample")}, {"evm_program_from_TLC": c.get("sample")},
                 {"multi_transaction_journal_behaviour_from_TLC": b2.get("sample")},
                 {"multi_transaction_evm_program_from_TLC": c2.get("sample")},
                 {"known_finding_programs_observed_values": res["f"]}],
        exhaustive=True,
        rule="TLC exhaustive on the journal model (%s); every bounded journal behaviour ending in a revert replayed on a real StateDB "
             "and every bounded frame program run by the real EVM with one observation per step, compared with the spec state and, at "
             "every revert / failed frame, with the projection captured before it; seeded TLC-simulated long programs and seeded random "
             "StateDB call sequences validated by JournalTrace.tla; all of it also across transaction boundaries (Finalize(true) + Prepare "
             "+ EVM.Reset) and, at the StateDB level, block boundaries (Commit + reopen)" % ", ".join(a["tlc_cfg"] + list(a2["tlc_runs"])))
    vlib.write_evidence(ctx, "model_checking", cov, ASSUMPTIONS)


def replay(ctx, path):
    j = json.loads(Path(path).read_text())
    rp = j["replay"]
    drv = build_driver()
    f = ctx.work / "one.ndjson"
    f.write_text(json.dumps(rp["steps"]) + "\n")
    rj, _ = drv_replay(ctx, drv, rp["level"], rp["universe"], f, "one", workers=1)
    for fd in (rj["findings"] or []):
        vlib.report(ctx, sig_of(fd), replay_obj(fd))
    print(json.dumps({"behaviours": rj["behaviours"], "clean": rj["clean"], "signatures": rj["signatures"]}))
