"""Renders spec/CodecTables.tla from `codecdrv tables` (the module is committed; C14 cross-checks it on every run)."""
import json


def q(s):
    return '"%s"' % s


def seq(xs):
    return "<<" + ", ".join(xs) + ">>"


def render(tables):
    L = ["--------------------------- MODULE CodecTables ---------------------------",
         "(* GENERATED from `codecdrv tables` by tools/props/C14_tables.py -- do not edit by hand.            *)",
         "(* Object types of the codec graph, their shape fields (name, domain, base value), the production  *)",
         "(* codecs of every type and which of them decode addresses relative to the node location.          *)",
         "TypeNames == " + seq(q(t["type"]) for t in tables), ""]

    def case(name, f):
        arms = ['t = %s -> %s' % (q(t["type"]), f(t)) for t in tables]
        L.append("%s(t) ==\n    CASE " % name + "\n      [] ".join(arms))
        L.append("")
    case("FieldNames", lambda t: seq(q(f["name"]) for f in t["fields"]))
    case("FieldDoms", lambda t: seq("{" + ", ".join(q(d) for d in f["dom"]) + "}" for f in t["fields"]))
    case("FieldBase", lambda t: seq(q(f["base"]) for f in t["fields"]))
    case("CodecsOf", lambda t: "{" + ", ".join(q(c) for c in t["codecs"]) + "}")
    case("LocSensOf", lambda t: "{" + ", ".join(q(c) for c in t["locsens"]) + "}")
    L.append("=============================================================================")
    return "\n".join(L) + "\n"


if __name__ == "__main__":
    import sys
    print(render(json.load(sys.stdin)), end="")
