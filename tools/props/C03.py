"""C03 — only the key holder can authorise a transaction; no replay across chains
(spec/Sig.tla case table + caches, harness/cmd/sigdrv)."""
import json, os, shutil, subprocess, time
from pathlib import Path
import vlib
from vlib import Broken

VERDICT_OPS = ("sender", "pooladd", "process", "qiverify")


def build_driver(ctx, name):
    """vlib.go_build against /repo; with VERIF_REPO=<other tree> the same harness is built against that
    tree through an alternate module file (used to try mutations without touching the shared /repo)."""
    repo = os.environ.get("VERIF_REPO", "/repo")
    if repo == "/repo":
        return vlib.go_build(name)
    mod = (vlib.HARNESS / "go.mod").read_text().replace("=> /repo", "=> " + repo)
    alt = ctx.work / "alt.mod"
    alt.write_text(mod)
    shutil.copyfile(Path(repo) / "go.sum", ctx.work / "alt.sum")
    out = ctx.work / "bin" / name
    out.parent.mkdir(parents=True, exist_ok=True)
    t = time.time()
    p = subprocess.run(["go", "build", "-modfile", str(alt), "-tags", "verif", "-o", str(out), "./cmd/" + name],
                       cwd=vlib.HARNESS, env=vlib.goenv(), capture_output=True, text=True)
    if p.returncode != 0:
        raise Broken("go build %s against %s failed:\n%s" % (name, repo, p.stderr[-4000:]))
    vlib.log("built %s against %s in %.1fs" % (name, repo, time.time() - t))
    return out


def via(kind):
    return "poolcache" if kind in ("pooladd", "process") else kind


def report_mismatches(ctx, rj, beh_file):
    for m in (rj.get("mismatches") or []):
        if m["kind"] in ("driver", "panic"):
            raise Broken("sigdrv could not execute a behaviour: %s" % json.dumps(m)[:3000])
        got = m["got"].split(",")[0] if m["got"].startswith("addr,") else m["got"]
        sig = {"kind": m["kind"], "via": via(m["kind"]), "expected": m["expected"], "got": got}
        if m["kind"] in ("hash-change", "hash-identity", "sender", "sender-scope"):
            sig["detail"] = (m["detail"].split(" alt=")[0] if m["kind"] == "hash-change" else
                             m["detail"].split(":")[0] if m["kind"] == "hash-identity" else "")
        vlib.report(ctx, sig, {"mode": "replay", "behaviour": m["beh"], "instseed": m["seed"], "step": m["step"],
                               "expected": m["expected"], "got": m["got"], "detail": m["detail"]})


def run(ctx):
    quick = ctx.quick
    drv = build_driver(ctx, "sigdrv")
    cov = {}
    # 1. design level: the case table satisfies the property invariants on the bounded graph (exhaustive);
    # 2. spec -> code: the same exhaustive run prints every transition of the graph as one behaviour
    emit_cfg = "MCSig_emit.cfg" if quick else "MCSig_emit5.cfg"
    er = vlib.tlc_must_pass(ctx, "MCSig", emit_cfg, workers=16, timeout=3000, seed=ctx.seed)
    cov.update(states=er.distinct, transitions=er.generated, tlc_depth=er.depth, tlc_cfg=emit_cfg)
    vlib.log("TLC %s: %d distinct / %d generated, depth %d, %.0fs" % (emit_cfg, er.distinct, er.generated, er.depth, er.wall))
    if not quick:
        r = vlib.tlc_must_pass(ctx, "MCSig", "MCSig_big.cfg", workers=16, timeout=3000, seed=ctx.seed)
        cov.update(deep_states=r.distinct, deep_transitions=r.generated, deep_cfg="MCSig_big.cfg")
        vlib.log("TLC MCSig_big.cfg: %d distinct / %d generated, depth %d, %.0fs" % (r.distinct, r.generated, r.depth, r.wall))
    beh = ctx.work / "behaviours.ndjson"
    with open(beh, "w") as f:
        for s in er.printed:
            f.write(s + "\n")
    nbeh = len(er.printed)
    if nbeh < 20000:
        raise Broken("TLC emitted only %d behaviours" % nbeh)
    vlib.log("TLC %s emitted %d behaviours (%.0fs)" % (emit_cfg, nbeh, er.wall))
    inst = 1 if quick else 2
    res = ctx.work / "replay.json"
    p = vlib.run([drv, "replay", "-in", beh, "-out", res, "-seed", ctx.seed, "-inst", inst, "-pool=true"], timeout=6000, check=True)
    rj = json.loads(res.read_text())
    if rj["behaviours"] != nbeh:
        raise Broken("driver read %d of %d behaviours" % (rj["behaviours"], nbeh))
    for op in ("sign", "mutate", "mutsig", "sender", "txhash", "pooladd", "process", "qisign", "qimutate", "qimutsig", "qiverify"):
        if rj["ops"].get(op, 0) == 0:
            raise Broken("no %s step was executed" % op)
    report_mismatches(ctx, rj, beh)
    vlib.log("replay: %d evaluations, %d distinct verdict classes, %.0fs" % (rj["evaluations"], rj["distinct_classes"], p.wall))

    # 3. the bit-flip edges with EVERY bit position
    nsweep = 12 if quick else 400
    sres = ctx.work / "sweep.json"
    p = vlib.run([drv, "sweep", "-seed", ctx.seed, "-n", nsweep, "-out", sres], timeout=6000, check=True)
    sj = json.loads(sres.read_text())
    for m in (sj.get("mismatches") or []):
        if m["kind"] == "panic":
            raise Broken("sigdrv sweep panicked: %s" % json.dumps(m)[:2000])
        vlib.report(ctx, {"kind": "sweep-" + m["kind"], "via": "sender", "field": m["field"]},
                    {"mode": "sweep", "tx": m["tx"], "seed": ctx.seed, "n": nsweep, "bit": m["bit"], "detail": m["detail"]})
    if sj["evaluations"] < nsweep * 1000:
        raise Broken("sweep evaluated only %d cases" % sj["evaluations"])
    vlib.log("sweep: %d evaluations, %.0fs" % (sj["evaluations"], p.wall))

    samples = []
    with open(beh) as f:
        for i, line in enumerate(f):
            if i in (nbeh // 5, nbeh // 2, nbeh - 7):
                samples.append({"behaviour_from_TLC_with_specified_outcome_classes": json.loads(line)})
    samples.append({"verdict_classes_exercised": rj["classes"][:: max(1, len(rj["classes"]) // 12)]})
    cov.update(
        evaluations=rj["evaluations"] + sj["evaluations"],
        distinct_nontrivial=rj["distinct_classes"] + len(sj["classes"]),
        behaviours_replayed=nbeh, instantiations_per_behaviour=inst, exhaustive=True,
        replay_evaluations=rj["evaluations"], sweep_evaluations=sj["evaluations"], sweep_transactions=nsweep,
        ops_replayed=rj["ops"], specified_outcomes_exercised=rj["outcomes"], emit_cfg=emit_cfg,
        rule="TLC enumerates EVERY transition of the bounded Sig.tla graph (%s) with the outcome class the spec defines; each is "
             "instantiated %d time(s) with seeded random keys, chain ids, field values (random, structural or single-bit-flipped "
             "alternatives), malformed-signature variants and construction paths (constructor / wire round trip) on the real code; "
             "a verdict class is DISTINCT by (verdict op, chain relation, set of fields differing from the signed payload, signature "
             "class, object-cache state, Qi owner/pubkey/signer sets, specified outcome) and counted only when its comparison was "
             "executed; plus every single-bit flip of R||S||V, of each field encoding and of the chain id for %d random signed "
             "transactions (classes by field)" % (emit_cfg, inst, nsweep),
        samples=samples)
    vlib.write_evidence(ctx, "exploration", cov, [
        "secp256k1 (libsecp256k1 via cgo, btcec), keccak256 and protobuf marshalling are trusted; the digest is assumed collision resistant",
        "ProcessWithCache is bound to the two calls through which StateProcessor.Process uses the pool's sender cache "
        "(TxPool.PeekSenderNoLock + Transaction.AsMessageWithSender), not to Process itself",
        "Qi verification runs the real core.ProcessQiTx(checkSig=true) and ValidateQiTxInputs+ValidateQiTxOutputsAndSignature on a memory "
        "database with real UTXO records and a stub ChainContext (header lookups, ETX eligibility)",
        "negative big integers (value, V) are not representable on the wire and are not generated",
    ])


def replay(ctx, path):
    j = json.loads(Path(path).read_text())
    rp = j["replay"]
    drv = build_driver(ctx, "sigdrv")
    if rp.get("mode") == "sweep":
        out = ctx.work / "sweep1.json"
        vlib.run([drv, "sweep", "-seed", rp["seed"], "-n", rp["n"], "-only", rp["tx"], "-out", out], check=True)
        sj = json.loads(out.read_text())
        for m in (sj.get("mismatches") or []):
            vlib.report(ctx, {"kind": "sweep-" + m["kind"], "via": "sender", "field": m["field"]}, dict(rp, detail=m["detail"], bit=m["bit"]))
        print(json.dumps({"evaluations": sj["evaluations"], "mismatches": len(sj.get("mismatches") or [])}))
        return
    f = ctx.work / "one.ndjson"
    f.write_text(json.dumps(rp["behaviour"]) + "\n")
    out = ctx.work / "one.json"
    vlib.run([drv, "replay", "-in", f, "-out", out, "-seed", j.get("seed", 1), "-instseed", rp["instseed"], "-pool=true"], check=True)
    rj = json.loads(out.read_text())
    report_mismatches(ctx, rj, f)
    print(json.dumps({"evaluations": rj["evaluations"], "mismatches": len(rj.get("mismatches") or [])}))
