"""C09 — accepted headers extend their parent by the protocol's rules (spec/Header.tla part "ext", harness/cmd/hdrdrv chains)."""
import json, random, re, shutil
from pathlib import Path
import vlib
from vlib import Broken

# what the driver may find on real code, by kind -> all are C09 violations
VIOLATIONS = {"honest-header-rejected", "honest-block-not-appended", "derived-field-differs", "deviation-accepted",
              "total-entropy-differs", "entropy-not-increasing", "order-differs-after-restart",
              "entropy-differs-after-restart", "verify-header-panicked", "log-entropy-differs", "order-unstable"}
# driver could not do its job (not a verdict)
DRIVER = {"driver-step-failed", "driver-limit", "context-parent-missing"}

ASSUMPTIONS = [
    "blake3 proof of work (the engine of the local network configuration); topology 1 region x 1 zone at expansion 0 (the deployed one)",
    "blocks are assembled by the node's own worker; their timestamps are set by the driver (parent time + {0..2, 4..6, 99..1000} s) to reach "
    "both sides of the retarget and its clamp; a 'climb' run first raises the difficulty ~25 adjustment units above the configured floor "
    "(the harness network's MinDifficulty equals its genesis difficulty) so that clamped and unclamped decreases are not masked by the floor",
    "a block of the node's own that verifyHeader accepted but Slice.Append refused for a reason outside the header rules (termini / pending body: "
    "the asynchronous worker racing the synchronous driver, seen once under heavy load) ends that run and is reported in harness_notes, not as a verdict",
    "numeric field rules are judged by a literal math/big transcription in the driver (number, time window, difficulty retarget with clamp and floor, "
    "gas limit, state limit, base fee, prime terminus hash/number, expansion number, parent entropy / delta / uncled delta per context, total entropy, "
    "order, header hash, block hash); efficiency score, threshold count, etx-eligible slices, miner difficulty and the post-fork share-difficulty "
    "fields are covered by must-reject deviations only",
    "work-share entropy of uncles is transcribed for sibling blocks (what forks produce) and for the post-fork formula; sub-target shares are not produced",
    "entropies reach TLC as dense ranks (order preserving); additive rules on them are judged by the driver oracle",
    "a field of a dominant context on a block that is not coincident with it (e.g. parentEntropy[region] of a zone-order block) is not constrained by any "
    "verifyHeader and is outside the deviation cover",
]


def select_shapes(printed, limit, seed):
    """TLC behaviours of the ext part -> driver scripts; complete behaviours only, deduplicated by abstract script."""
    seen, out = set(), []
    maxlen = 0
    hists = []
    for s in printed:
        h = json.loads(s)
        hists.append(h)
        maxlen = max(maxlen, len(h))
    for h in hists:
        if len(h) != maxlen:
            continue
        steps, orders, ok, next = [], {0: 1}, True, 0
        for rec in h:
            if rec["op"] == "extend":
                o = rec["res"][1]
                if o == 1 and orders[rec["p"]] == 1:
                    ok = False            # a prime block directly on a prime block: twice the bits of work, not mineable in the harness
                orders[rec["b"]] = o
                steps.append({"op": "extend", "p": rec["p"], "b": rec["b"], "ord": o, "dt": rec["dt"], "res": rec["res"]})
            elif rec["op"] == "calcorder":
                steps.append({"op": "calcorder", "b": rec["b"], "res": rec["res"]})
            elif rec["op"] == "restart":
                steps.append({"op": "restart"})
        if not ok or sum(1 for x in steps if x["op"] == "extend") < 2:
            continue
        key = json.dumps([(x["op"], x.get("p"), x.get("b"), x.get("ord"), x.get("dt")) for x in steps])
        if key in seen:
            continue
        seen.add(key)
        out.append(steps)
    rnd = random.Random(seed)
    rnd.shuffle(out)
    # prefer scripts that exercise the cache and a restart
    out.sort(key=lambda st: -(any(x["op"] == "restart" for x in st) + any(x["op"] == "calcorder" for x in st)))
    total = len(out)
    head = out[: limit // 2]
    tail = out[limit // 2:]
    rnd.shuffle(tail)
    return head + tail[: limit - len(head)], total


def run_driver(ctx, drv, tag, args, timeout):
    p = vlib.run([drv, "chains"] + args, timeout=timeout)
    if p.returncode != 0:
        raise Broken("hdrdrv chains %s failed (%d): %s\n%s" % (tag, p.returncode, p.stdout[-1500:], p.stderr[-2500:]))
    return json.loads(p.stdout.strip().splitlines()[-1])


def judge(ctx, info, tag, seed, extra):
    driver_problems = []
    for pr in info.get("problems") or []:
        k, i = pr["kind"], pr["info"]
        if k in VIOLATIONS:
            sig = {"kind": k, "what": i.get("field") or i.get("deviation") or i.get("what") or i.get("ctx", "")}
            vlib.report(ctx, sig, dict(extra, seed=seed, run=tag, problem=pr))
        else:
            driver_problems.append(pr)
    for m in info.get("replay_mismatches") or []:
        vlib.report(ctx, {"kind": "spec-vs-code", "what": m["what"]}, dict(extra, seed=seed, run=tag, mismatch=m))
    if driver_problems and not ctx.violations:
        raise Broken("driver could not complete %s: %s" % (tag, json.dumps(driver_problems[:3])[:1500]))


def validate(ctx, tag, tr, extra=None):
    t = vlib.tlc(ctx, "HeaderTrace", "HeaderTrace.cfg", workers=1, timeout=3000, tag="HeaderTrace-" + tag,
                 files={"hdrtrace.ndjson": Path(tr).read_text()})
    if t.ok:
        return True
    if t.violated:
        m = re.findall(r"mismatch = (<<.*?>>)\n", t.out, re.S)
        detail = m[-1][:300] if m else ""
        what = t.violated
        mm = re.match(r'<<\d+, "([\w-]+)"', detail)
        if t.violated == "ObservationsConform" and mm:
            what = mm.group(1)
        vlib.report(ctx, {"kind": "trace-" + t.violated, "what": what}, dict(extra or {}, run=tag, invariant=t.violated, detail=detail, trace=str(tr)))
        return False
    raise Broken("HeaderTrace did not accept the trace of %s:\n%s" % (tag, (t.error or t.out)[-2500:]))


def run(ctx):
    quick = ctx.quick
    drv = vlib.go_build("hdrdrv")
    cov = {}
    # 1. design: the rules as a specification; every tree of the bounded model
    d1 = vlib.tlc_must_pass(ctx, "MCHeader", "MCHeader_ext_dev.cfg" if quick else "MCHeader_ext_small.cfg", workers=8, timeout=3000)
    vlib.log("TLC deviations: %d distinct / %d generated, %.0fs" % (d1.distinct, d1.generated, d1.wall))
    states, trans = d1.distinct, d1.generated
    if not quick:
        d2 = vlib.tlc_must_pass(ctx, "MCHeader", "MCHeader_ext_tree.cfg", workers=8, timeout=3000)
        vlib.log("TLC trees: %d distinct / %d generated, %.0fs" % (d2.distinct, d2.generated, d2.wall))
        states, trans = states + d2.distinct, trans + d2.generated
    # 1b. the order function as a case table over every expansion number (spec/OrderCases.tla), realised on real sealed headers
    oc = vlib.tlc_must_pass(ctx, "OrderCases", "MCOrderCases.cfg", workers=2, timeout=900)
    cases = sorted(set(oc.printed))
    if len(cases) < 100:
        raise Broken("OrderCases emitted only %d cases" % len(cases))
    cf = ctx.work / "ordercases.ndjson"
    cf.write_text("\n".join(cases) + "\n")
    ores = ctx.work / "ordercases-res.json"
    p = vlib.run([drv, "ordercases", "-in", cf, "-out", ores, "-seed", ctx.seed, "-zt", "6,9" if quick else "6,9,11", "-reps", 2 if quick else 6], timeout=3000)
    if p.returncode != 0:
        raise Broken("hdrdrv ordercases failed (%d): %s\n%s" % (p.returncode, p.stdout[-800:], p.stderr[-1500:]))
    oj = json.loads(ores.read_text())
    if oj["stats"].get("realised", 0) < 150 or any(oj["stats"].get("realised-e%d" % e, 0) < 10 for e in range(1, 5)):
        raise Broken("order cases realised too thinly: %s" % json.dumps(oj["stats"]))
    for m in oj["mismatches"] or []:
        c = m["case"]
        vlib.report(ctx, {"kind": "order-case", "what": "e%d-%s-sumR%d-sumP%d" % (c["e"], c["window"], c["sumR"], c["sumP"])},
                    {"layer": "ordercases", "case": c, "node_answer": m["got"], "specified_order": m["want"], "zt": m["zt"], "detail": m["detail"]})
    cov.update(order_cases=len(cases), order_cases_realised=oj["stats"].get("realised", 0), order_case_samples=oj.get("samples") or [])
    # 2. spec -> code: behaviours (tree shapes with orders, time classes, CalcOrder calls, restarts) on fresh networks
    e = vlib.tlc_must_pass(ctx, "MCHeader", "MCHeader_ext_emit.cfg", workers=8, timeout=3000)
    vlib.log("TLC emit: %d behaviours, %d distinct states, %.0fs" % (len(e.printed), e.distinct, e.wall))
    states, trans = states + e.distinct, trans + e.generated
    shapes, total_shapes = select_shapes(e.printed, 10 if quick else 100, ctx.seed)
    if len(shapes) < 5:
        raise Broken("only %d usable behaviours from TLC" % len(shapes))
    cov.update(states=states, transitions=trans, tlc_behaviours=len(e.printed), distinct_scripts=total_shapes, scripts_replayed=len(shapes))
    sf = ctx.work / "shapes.ndjson"
    vlib.write_ndjson(sf, shapes)
    validated, samples, totals, harness_notes = 0, [], {}, []
    # the climb scenario: difficulty raised well above the configured floor, then block times around the retarget clamp
    plans = [("shapes", "base", ["-shapes", sf]), ("climb", "climb", ["-climb", 25, "-steps", 4 if quick else 20])]
    nrand = 1 if quick else 3
    steps = 22 if quick else 120
    for i in range(nrand):
        for prof in ("base", "ramp", "fork"):
            plans.append(("rand-%s-%d" % (prof, i), prof, ["-steps", steps]))
    for i, (tag, prof, extra) in enumerate(plans):
        seed = ctx.seed * 100 + i
        tr = ctx.work / ("hdrtrace-%s.ndjson" % tag)
        info = run_driver(ctx, drv, tag, ["-seed", seed, "-profile", prof, "-out", tr, "-append-every", 4 if quick else 3,
                                          "-cold-every", 10 if quick else 25] + extra, timeout=3000)
        judge(ctx, info, tag, seed, {"profile": prof, "args": [str(a) for a in extra if a != sf]})
        for nt in info.get("notes") or []:
            vlib.log("note (%s): the node did not append its own block for a reason outside the header rules: %s" % (tag, nt))
            harness_notes.append("%s: %s" % (tag, nt))
        for k, v in info["stats"].items():
            totals[k] = totals.get(k, 0) + v
        if validate(ctx, tag, tr, {"profile": prof, "seed": seed, "args": [str(a) for a in extra if a != sf]}):
            validated += 1
        if len(samples) < 4:
            rows = [r for r in vlib.read_ndjson(tr) if r["op"] == "extend"]
            samples += rows[3:5] if tag == "shapes" else rows[-1:]
    if len(harness_notes) > 2 and not ctx.violations:
        raise Broken("the harness network refused its own blocks too often: %s" % harness_notes[:3])
    if totals.get("deviations", 0) < 300 or totals.get("cold_checks", 0) < 3 or totals.get("retarget_clamped_above_floor", 0) == 0 or \
            totals.get("retarget_down_above_floor", 0) == 0 or totals.get("post_fork_blocks", 0) == 0 or totals.get("blocks", 0) < 60:
        if not ctx.violations:
            raise Broken("driver coverage too thin: %s" % json.dumps(totals))
    cov.update(traces_validated_against_impl=validated, impl=totals, harness_notes=harness_notes, samples=samples + [{"script_from_TLC": shapes[0]}],
               rule="TLC: every block tree of the bounded model satisfies ChildEqualsDerived / DeviationRejected / EntropyStrictlyIncreases / OrderStable ...; "
                    "TLC-generated scripts (extend with order and time class, CalcOrder warm/cold, restart) realised on fresh real networks; seeded random "
                    "fork-heavy chains on three parameter profiles (deployed constants; gas/state-limit ramp; chain crossing the KawPow fork); per real header: "
                    "VerifyHeader accepts it at every coincident context, an independent oracle recomputes every derived field, every single-field deviation "
                    "(re-sealed) is rejected by VerifyHeader and, sampled, by Slice.Append; order compared warm / repeated / across cores / cold core on a "
                    "database copy / oracle; HeaderTrace.tla evaluates the C09 invariants on the implementation's values")
    vlib.write_evidence(ctx, "model_checking", cov, ASSUMPTIONS)


def replay(ctx, path):
    j = json.loads(Path(path).read_text())
    rp = j["replay"]
    drv = vlib.go_build("hdrdrv")
    if "mismatch" in rp:
        sf = ctx.work / "one.ndjson"
        vlib.write_ndjson(sf, [rp["mismatch"]["behaviour"]])
        extra = ["-shapes", sf]
    else:
        # (a problem met while realising TLC scripts is a property of single headers: any chain of that profile shows it)
        extra = rp.get("args") or ["-steps", 22 if j["tier"] == "quick" else 120]
    tr = ctx.work / "replay.ndjson"
    info = run_driver(ctx, drv, "replay", ["-seed", rp.get("seed", 1), "-profile", rp.get("profile", "base"), "-out", tr] + extra, timeout=3000)
    judge(ctx, info, "replay", rp.get("seed", 1), {"profile": rp.get("profile", "base"), "args": extra})
    validate(ctx, "replay", tr, {"profile": rp.get("profile", "base"), "seed": rp.get("seed", 1), "args": [str(a) for a in extra]})
    print(json.dumps(info["stats"]))
