"""C10 — reorganisation leaves exactly the state of the winning branch."""
import json, shutil
from pathlib import Path
import vlib
from vlib import Broken
import zonechain as zc

C10_PROBLEMS = {"reorged-node-differs-from-fresh-node", "reorged-node-canonical-index-differs", "fresh-node-rejects-canonical-block",
                "follower-state-differs", "follower-sethead-differs", "address-index-differs-from-utxo-set", "dom-canonical-index-differs"}


def run(ctx):
    quick = ctx.quick
    drv = vlib.go_build("chaindrv")
    dbdir = zc.scratch(ctx)
    cov = {}
    try:
        d = zc.design_run(ctx, "MCZoneChain_quick.cfg" if quick else "MCZoneChain_big.cfg", timeout=3000)
        cov.update(states=d.distinct, transitions=d.generated, tlc_depth=d.depth)
        shp, total_shapes, _ = zc.shapes(ctx, 12 if quick else 120, ctx.seed)
        cov.update(tlc_tree_shapes=total_shapes, shapes_replayed=len(shp))
        validated, events, fresh, sethead_events, samples, index_checks, chained = 0, 0, 0, 0, [], 0, 0
        # long traces make trace validation quadratic: at most 12 TLC shapes (about 80 blocks) per driver run
        chunks = [shp[i:i + 12] for i in range(0, len(shp), 12)]
        plans = [("shapes%d" % i, c, 0) for i, c in enumerate(chunks)] + [("rand%d" % i, None, 50 if quick else 120) for i in range(1 if quick else 5)]
        for i, (tag, shapes_list, steps) in enumerate(plans):
            sub = dbdir / tag; sub.mkdir()
            seed = ctx.seed * 100 + i
            tr, info = zc.run_chaindrv(ctx, drv, "c10-" + tag, seed, steps, sub, shapes_list=shapes_list,
                                       extra=["-fresh", 12 if quick else 20, "-trimdepth", 4, "-lockups"] + (["-chained", 7] if shapes_list is None else []) +
                                             (["-followers", "leveldb"] if (not quick and i % 2 == 1) else []) +
                                             (["-index"] if (shapes_list is None or i % 3 == 2) else []))
            index_checks += info.get("index_checks", 0)
            chained += info.get("chained_blocks", 0)
            for pr in info.get("problems") or []:
                if pr["kind"] in C10_PROBLEMS:
                    vlib.report(ctx, {"kind": pr["kind"]}, {"seed": seed, "plan": tag, "problem": pr, "trace": str(tr)})
                else:
                    vlib.log("note: problem outside C10:", pr["kind"])
            rows = vlib.read_ndjson(tr)
            failed_switch = [r for r in rows if r["op"] == "sethead" and r.get("err")]
            for r in failed_switch:
                vlib.report(ctx, {"kind": "head-switch-to-valid-block-failed"}, {"seed": seed, "plan": tag, "event": {k: r[k] for k in ("b", "errmsg")}, "trace": str(tr)})
            ok, mm, t = zc.validate_trace(ctx, "c10-" + tag, tr)
            if ok:
                validated += 1
            else:
                vlib.report(ctx, {"kind": "trace-" + mm["what"]}, {"seed": seed, "plan": tag, "mismatch": mm, "trace": str(tr)})
            events += info["events"]; fresh += info["fresh_replays"]
            sethead_events += sum(1 for r in rows if r["op"] == "sethead")
            if len(samples) < 3:
                samples += [r for r in zc.sample_events(tr, 6) if r["op"] == "sethead"][:2]
            shutil.rmtree(sub, ignore_errors=True)
        if fresh == 0 or sethead_events < 5:
            raise Broken("driver performed no fresh-node comparisons / too few head switches")
        if chained == 0 and not ctx.violations:
            raise Broken("no peer-style block with a same-block chained Qi spend was realised")
        if index_checks < 20:
            raise Broken("address index compared only %d times" % index_checks)
        cov.update(traces_validated_against_impl=validated, impl_trace_events=events, head_switch_events=sethead_events,
                   fresh_node_comparisons=fresh, address_index_comparisons=index_checks, chained_spend_blocks_reorged=chained, samples=samples or [{"note": "no head switch sampled"}],
                   rule="every block-tree / head-switch shape of the bounded model (TLC) and random fork-heavy runs executed on a real node with "
                        "random Qi/Quai/conversion content; after every head switch the full database image (ut, cl, canonical index, heads) "
                        "must equal ZoneChain.tla's replay of the winning branch and, periodically, the image of a fresh node fed only the winner; with "
                        "IndexAddressUtxos on, the per-address index ('auwh' records) must list exactly the unspent outputs of each address as scanned from 'ut'")
    finally:
        shutil.rmtree(dbdir, ignore_errors=True)
    zc.check_aborted(ctx)
    vlib.write_evidence(ctx, "model_checking", cov, [
        "blocks are produced by the node's own worker, plus peer-style blocks whose second Qi transaction spends an output of the first (the worker never "
        "builds those; harness/chain/craft.go appends the transaction and recomputes the commitments with the node's own Process); other adversarial "
        "block contents are covered by C01/C07",
        "single-zone topology; reorg depth bounded by the scenario generator (<= ~6 blocks)",
    ])


def replay(ctx, path):
    j = json.loads(Path(path).read_text())
    ctx.seed = j["seed"]
    run(ctx)
