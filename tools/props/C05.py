"""C05 — Sending value off-chain is all-or-nothing at the origin (spec/EvmValue.tla, harness/cmd/evmdrv).

Specification, driver and pipeline are shared with C02 (tools/props/C02.py); this check reports the violations that
concern the off-chain send operations (opETX, opConvert, CreateETX, UnwrapQi, ClaimCoinbaseLockup): status word,
debit, recorded ETX, fresh index, stack discipline, the receipt's outbound list."""
from props import C02 as shared


def run(ctx):
    shared.run_check(ctx)


def replay(ctx, path):
    shared.replay(ctx, path)
