"""C15 — no input can crash the node or make it use resources it did not pay for.
(a) decoders: spec/CodecFuzz.tla defect lattice + seeded byte mutations -> harness/cmd/codecdrv (fuzz mode, built as fuzzdrv)
(b) EVM memory metering: spec/EvmMem.tla + harness/cmd/memdrv (tools/props/C15_mem.py)."""
import json, os, re, shutil, subprocess, sys, time
from pathlib import Path
import vlib
from vlib import Broken

sys.path.insert(0, str(Path(__file__).resolve().parent))
import C15_tables

OVERLAY_SRC = vlib.HARNESS / "cmd" / "codecdrv" / "overlay" / "pubsub_validator.go.txt"
OVERLAY_DST = vlib.REPO / "p2p" / "node" / "pubsubManager" / "verif_validator_overlay.go"


def build_fuzzdrv(ctx):
    """codecdrv with the gossip-validator shim compiled into go-quai's pubsubManager package through
    `go build -overlay` (nothing is written to /repo), against a private go.mod that lists every requirement
    of /repo (the validator pulls in packages the shared harness go.mod does not know)."""
    d = ctx.sub("build")
    (d / "overlay.json").write_text(json.dumps({"Replace": {str(OVERLAY_DST): str(OVERLAY_SRC)}}))
    repo_mod = (vlib.REPO / "go.mod").read_text()
    gover = re.search(r"^go (\S+)", (vlib.HARNESS / "go.mod").read_text(), re.M).group(1)
    out = ["module verifharness", "", "go " + gover, "", "require github.com/dominant-strategies/go-quai v0.0.0", "", "require ("]
    seen = set()
    for m, v in re.findall(r"^\s+(\S+) (v\S+)", repo_mod, re.M):
        if m in seen or m.startswith("github.com/dominant-strategies/go-quai"):
            continue
        seen.add(m)
        out.append("\t%s %s" % (m, v))
    out += [")", "", "replace github.com/dominant-strategies/go-quai => " + str(vlib.REPO)]
    out += re.findall(r"^replace .*$", repo_mod, re.M)
    (d / "go.mod").write_text("\n".join(out) + "\n")
    shutil.copyfile(vlib.REPO / "go.sum", d / "go.sum")
    bindir = vlib.WORK / "bin"
    bindir.mkdir(parents=True, exist_ok=True)
    exe = bindir / "fuzzdrv"
    t = time.time()
    p = subprocess.run(["go", "build", "-modfile=" + str(d / "go.mod"), "-tags", "verif overlay", "-overlay", str(d / "overlay.json"),
                        "-o", str(exe), "./cmd/codecdrv"], cwd=vlib.HARNESS, env=vlib.goenv(), capture_output=True, text=True)
    if p.returncode != 0:
        raise Broken("go build fuzzdrv failed:\n" + p.stderr[-4000:])
    vlib.log("built fuzzdrv in %.1fs" % (time.time() - t))
    return exe


def check_tables(drv):
    p = vlib.run([drv, "fuzztables"], check=True, timeout=600)
    ft = json.loads(p.stdout.strip().splitlines()[-1])
    if C15_tables.render(ft) != (vlib.SPEC / "CodecFuzzTables.tla").read_text():
        raise Broken("spec/CodecFuzzTables.tla differs from `fuzzdrv fuzztables` (regenerate: fuzzdrv fuzztables | python3 tools/props/C15_tables.py)")
    return ft


def sig_of(v):
    return {"kind": v["kind"], "entry": v["entry"], "class": v["class"]}


def run_decoders(ctx):
    drv = build_fuzzdrv(ctx)
    ft = check_tables(drv)
    cfg = "CodecFuzz_quick.cfg" if ctx.quick else "CodecFuzz_thorough.cfg"
    r = vlib.tlc_must_pass(ctx, "CodecFuzz", cfg, workers=8, timeout=2400)
    cases = ctx.work / "defect-cases.ndjson"
    cases.write_text("\n".join(r.printed) + "\n")
    if len(r.printed) < 1000:
        raise Broken("TLC emitted only %d defect cases" % len(r.printed))
    vlib.log("TLC %s: %d defect cases (%d states), %.0fs" % (cfg, len(r.printed), r.distinct, r.wall))
    res = ctx.work / "fuzz.json"
    mut = 400 if ctx.quick else 15000
    p = vlib.run([drv, "fuzz", "-in", cases, "-out", res, "-seed", ctx.seed, "-mut", mut, "-inst", 1], timeout=3300)
    if p.returncode != 0:
        raise Broken("fuzzdrv fuzz failed or died (%d) -- an uncaught crash/exit of an entry point or a harness bug:\n%s" % (p.returncode, (p.stderr or p.stdout)[-3000:]))
    rj = json.loads(res.read_text())
    if rj["defect_cases"] != len(r.printed):
        raise Broken("driver consumed %d of %d defect cases" % (rj["defect_cases"], len(r.printed)))
    idle = [e for e in rj["entries"] if rj["per_entry"].get(e.split(" [")[0], 0) == 0]
    if idle:
        raise Broken("entry points never exercised: %s" % idle)
    for v in rj["violations"] or []:
        vlib.report(ctx, sig_of(v), {"half": "decoders", "entry": v["entry"], "reach": v["reach"], "carrier": v["carrier"], "origin": v["origin"],
                                     "hex": v["hex"], "len": v["len"], "alloc": v["alloc"], "count": v["count"], "stack": v["stack"][:3000]})
    vlib.log("decoders: %d calls over %d entry points, %d distinct outcome classes, %d violation signature(s), %.0fs" % (
        rj["calls"], len(rj["entries"]), rj["distinct_outcome_classes"], len(rj["violations"] or []), p.wall))
    with open(cases) as f:
        lines = f.read().splitlines()
    samples = [json.loads(lines[len(lines) // 3].replace('"defects":[]', '"defects":{}')), json.loads(lines[-1].replace('"defects":[]', '"defects":{}'))]
    return {"defect_cases_from_tlc": len(r.printed), "tlc_states": r.distinct, "tlc_cfg": cfg, "calls": rj["calls"],
            "entry_points": rj["entries"], "per_entry": rj["per_entry"], "distinct_outcome_classes": rj["distinct_outcome_classes"],
            "rejected_with_error": rj["errors"], "accepted": rj["accepted"], "byte_mutations_per_carrier": mut,
            "max_alloc_bytes_per_entry": rj["max_alloc"], "client_library_decoder_panics_not_counted": rj["client_lib_panics"],
            "carriers": [c["carrier"] for c in ft["carriers"]], "samples": samples}


def run(ctx):
    cov = {}
    dec = run_decoders(ctx)
    cov["decoders"] = dec
    try:
        import C15_mem
    except ImportError as e:
        raise Broken("tools/props/C15_mem.py (EVM memory metering half) missing: %s" % e)
    mem = C15_mem.run_mem(ctx)
    cov["evm_memory"] = mem
    ev = dec["calls"] + int(mem.get("steps", 0) or 0)
    distinct = dec["distinct_outcome_classes"] + int(mem.get("distinct_classes", 0) or 0)
    samples = [{"decoder_defect_case": s} for s in dec["samples"]] + [{"evm_memory": s} for s in (mem.get("samples") or [])[:2]]
    cov.update(evaluations=ev, distinct_nontrivial=distinct, samples=samples, exhaustive=False,
               rule="(a) decoders: every case of the defect lattice enumerated by TLC (spec/CodecFuzz.tla: per input carrier and "
                    "protobuf message type inside it, every set of <= %d fields marked missing/truncated/oversized/wrongkind, each "
                    "single defect in all its sub-variants) applied to valid instances, plus %d seeded byte/JSON mutations per "
                    "carrier, fed to every production entry point of the carrier inside recover() with the allocation measured "
                    "(bound: 64 MiB + 64 x input); distinct = distinct (entry point, generator, outcome) classes observed. "
                    "(b) EVM memory: see evm_memory (opcode facts extracted from the real jump table, programs per memory opcode "
                    "under small and large gas, peak memory vs the quadratic cost of the gas spent); distinct = (opcode, grew, paid) classes"
                    % (1 if ctx.quick else 2, dec["byte_mutations_per_carrier"]))
    vlib.write_evidence(ctx, "exploration", cov, [
        "arbitrary byte strings are reached only through shaped (defect lattice) and mutated valid encodings: no claim on the whole input space",
        "the gossip validator is the production PubsubManager.ValidatorFunc compiled in through a build overlay, bound to real core.Core instances at genesis; "
        "branches that need a longer chain (current header after the KawPow fork, PoW filter against a non-genesis head) are not reached",
        "log.Fatal on an unreadable local database record is treated as the code's fail-stop policy, not as a violation; panics are",
        "RPC handlers and p2p stream handlers recover panics (a panic there fails the request); the gossip validator does not (a panic there kills the process)",
        "client-library JSON decoders (Transaction/Header/WorkObject/Receipt UnmarshalJSON) are exercised but not judged: the node does not feed them untrusted input",
        "Slice.GetPendingHeader without a pending header (DESIGN F8) needs a booted slice and is covered elsewhere",
        "Go runtime, protobuf/RLP/JSON libraries, btcd/ltcd wire decoders and TLC are trusted",
    ])


def replay(ctx, path):
    j = json.loads(Path(path).read_text())
    rp = j["replay"]
    if rp.get("half") == "decoders":
        drv = build_fuzzdrv(ctx)
        p = vlib.run([drv, "fuzzone", "-entry", rp["entry"], "-hex", rp["hex"]], timeout=600)
        if p.returncode != 0:
            raise Broken("fuzzone died (%d): %s" % (p.returncode, (p.stderr or p.stdout)[-2000:]))
        out = json.loads(p.stdout.strip().splitlines()[-1])
        print(json.dumps({"calls": out["calls"], "violations": [sig_of(v) for v in (out["violations"] or [])]}))
        for v in out["violations"] or []:
            vlib.report(ctx, sig_of(v), dict(rp, stack=v["stack"][:3000]))
    else:
        import C15_mem
        C15_mem.replay_mem(ctx, rp)
