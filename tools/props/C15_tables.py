"""Renders spec/CodecFuzzTables.tla from `fuzzdrv fuzztables` (committed; C15 cross-checks it on every run)."""
import json


def q(s):
    return '"%s"' % s


def render(ft):
    carriers = ft["carriers"]
    L = ["------------------------- MODULE CodecFuzzTables -------------------------",
         "(* GENERATED from `fuzzdrv fuzztables` by tools/props/C15_tables.py -- do not edit by hand.        *)",
         "(* Input carriers of the node (one per production channel), the protobuf message types reachable  *)",
         "(* inside a valid carrier, and the fields of every message type (from the generated descriptors). *)",
         "Carriers == {" + ", ".join(q(c["carrier"]) for c in carriers) + "}", ""]
    arms = ['k = %s -> {%s}' % (q(c["carrier"]), ", ".join(q(m) for m in sorted(c["msgs"]))) for c in carriers]
    L.append("MsgsOf(k) ==\n    CASE " + "\n      [] ".join(arms))
    L.append("")
    msgs = {}
    for c in carriers:
        for m, fs in c["msgs"].items():
            msgs[m] = fs
    arms = ['m = %s -> {%s}' % (q(m), ", ".join(q(f) for f in fs)) for m, fs in sorted(msgs.items())]
    L.append("FieldsOfMsg(m) ==\n    CASE " + "\n      [] ".join(arms))
    L.append("")
    L.append("=============================================================================")
    return "\n".join(L) + "\n"


if __name__ == "__main__":
    import sys
    print(render(json.load(sys.stdin)), end="")
