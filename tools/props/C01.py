"""C01 — Qi ledger: each output spent at most once; no Qi created from nothing (spec/QiLedger.tla)."""
import json, re, shutil
from pathlib import Path
import vlib
from vlib import Broken
import zonechain as zc


def split_printed(r):
    defs, beh = None, []
    for s in r.printed:
        if s.startswith("DEFS"):
            defs = json.loads(s[4:])
        else:
            beh.append(s)
    return defs, beh


def run(ctx):
    quick = ctx.quick
    drv = vlib.go_build("qidrv")
    cdrv = vlib.go_build("chaindrv")
    dbdir = zc.scratch(ctx)
    cov = {}
    try:
        # 1. design
        d = vlib.tlc_must_pass(ctx, "MCQiLedger", "MCQiLedger_small.cfg" if quick else "MCQiLedger_big.cfg", workers=8, timeout=3000)
        cov.update(states=d.distinct, transitions=d.generated, tlc_depth=d.depth)
        lead = vlib.tlc(ctx, "MCQiLedger", "MCQiLedger_leadF1.cfg", workers=4, timeout=600)
        cov["design_leads"] = [{"cfg": "MCQiLedger_leadF1.cfg", "expected_violation": "SpentAtMostOnce", "found_by_TLC": lead.violated == "SpentAtMostOnce",
                                "note": "a batch that does not report its own writes (pebble/memorydb/table before fix 191187e6) lets one outpoint be spent "
                                        "twice inside a transaction or block; the replay below runs the same behaviours on every back-end"}]
        if lead.violated != "SpentAtMostOnce":
            raise Broken("spec drift: without read-your-writes the model no longer exhibits the double spend")
        # 2. spec -> code: every block-ending transition of the bounded model on 4 back-ends
        e = vlib.tlc_must_pass(ctx, "MCQiLedger", "MCQiLedger_emit.cfg" if quick else "MCQiLedger_emitbig.cfg", workers=8, timeout=3000)
        defs, beh = split_printed(e)
        if not defs or len(beh) < 500:
            raise Broken("TLC emitted %d behaviours" % len(beh))
        bf, df = ctx.work / "beh.ndjson", ctx.work / "defs.json"
        bf.write_text("\n".join(beh) + "\n")
        df.write_text(json.dumps(defs))
        sub = dbdir / "replay"; sub.mkdir()
        res = ctx.work / "replay.json"
        vlib.run([drv, "replay", "-in", bf, "-defs", df, "-out", res, "-dir", sub], timeout=3000, check=True)
        rj = json.loads(res.read_text())
        steps = 0
        for be, st in rj["backends"].items():
            if st.get("behaviours") != len(beh):
                raise Broken("back-end %s replayed %s of %d behaviours" % (be, st.get("behaviours"), len(beh)))
            steps += st["steps"]
        for m in rj["mismatches"] or []:
            vlib.report(ctx, {"kind": m["kind"], "backend": m["backend"], "tx": m["tx"]},
                        {"behaviour": m["steps"], "expected": m["expected"], "got": m["got"], "backend": m["backend"], "defs": defs["txs"].get(m["tx"])})
        cov.update(behaviours_replayed=len(beh), backend_steps_compared=steps, verdict_classes=rj["classes"])
        # 2b. the same for the regime with a base fee and Qi->Quai conversion transactions (MCQiLedgerConv.tla): converted
        #     outputs are handed out (not stored, not part of the fee), one recipient per transaction, no transaction without a fee
        ec = vlib.tlc_must_pass(ctx, "MCQiLedgerConv", "MCQiLedgerConv_emit.cfg", workers=8, timeout=3000)
        cdefs, cbeh = split_printed(ec)
        if not cdefs or len(cbeh) < 500:
            raise Broken("TLC emitted %d conversion behaviours" % len(cbeh))
        cbf, cdf = ctx.work / "beh-conv.ndjson", ctx.work / "defs-conv.json"
        cbf.write_text("\n".join(cbeh) + "\n")
        cdf.write_text(json.dumps(cdefs))
        csub = dbdir / "replay-conv"; csub.mkdir()
        cres = ctx.work / "replay-conv.json"
        vlib.run([drv, "replay", "-in", cbf, "-defs", cdf, "-out", cres, "-dir", csub, "-basefee", 1], timeout=3000, check=True)
        cj = json.loads(cres.read_text())
        csteps = 0
        for be, st in cj["backends"].items():
            if st.get("behaviours") != len(cbeh):
                raise Broken("back-end %s replayed %s of %d conversion behaviours" % (be, st.get("behaviours"), len(cbeh)))
            csteps += st["steps"]
        conv_ok = sum(v for k, v in cj["classes"].items() if k.startswith("c") and k.endswith("/ok"))
        if conv_ok < 100 or not any(k.endswith("/convaddr") for k in cj["classes"]) or not any(k.endswith("/fee") for k in cj["classes"]):
            if not cj["mismatches"]:
                raise Broken("conversion replay is vacuous: %s" % cj["classes"])
        for m in cj["mismatches"] or []:
            vlib.report(ctx, {"kind": m["kind"], "backend": m["backend"], "tx": m["tx"], "regime": "basefee+conversion"},
                        {"behaviour": m["steps"], "expected": m["expected"], "got": m["got"], "backend": m["backend"], "defs": cdefs["txs"].get(m["tx"]),
                         "model": "MCQiLedgerConv", "basefee": 1})
        cov.update(conversion_behaviours_replayed=len(cbeh), conversion_backend_steps_compared=csteps, conversion_verdict_classes=cj["classes"])
        samples = [{"behaviour_from_TLC": json.loads(beh[len(beh) // 2])}]
        # 3. code -> spec: random universes, all back-ends, validated by QiLedgerTrace.tla
        validated, events = 0, 0
        for i in range(1 if quick else 5):
            seed = ctx.seed * 10 + i
            sub = dbdir / ("rand%d" % i); sub.mkdir()
            tr = ctx.work / ("qitrace-%d.ndjson" % i)
            p = vlib.run([drv, "random", "-seed", seed, "-episodes", 40 if quick else 250, "-ntx", 40 if quick else 70, "-out", tr, "-dir", sub], timeout=3000, check=True)
            info = json.loads(p.stdout.strip().splitlines()[-1])
            events += info["events"]
            t = vlib.tlc(ctx, "QiLedgerTrace", "QiLedgerTrace.cfg", workers=1, timeout=3000, tag="QiTrace-%d" % i, files={"qitrace.ndjson": tr.read_text()})
            if t.ok:
                validated += info["episodes"]
            elif t.violated == "ObservationsConform":
                m = re.findall(r'mismatch = <<\s*(\d+),\s*"([\w-]+)",\s*"(\w+)",\s*"(\w*)",\s*(<<.*?>>),\s*(<<.*?>>)\s*>>', t.out, re.S)
                line, backend, op, tx, got, exp = m[-1] if m else ("0", "?", "?", "?", "?", "?")
                rows = vlib.read_ndjson(tr)
                ln = int(line)
                start = max(j for j in range(ln) if rows[j]["op"] == "reset") if ln else 0
                vlib.report(ctx, {"kind": "trace-vs-spec", "backend": backend, "op": op},
                            {"seed": seed, "episode": rows[start:ln], "observed": got, "specified": exp, "tx_def": rows[0]["txs"].get(tx)})
            elif t.violated in ("SpentAtMostOnce", "NoValueFromNothing", "OutputsOnlyLocalQi"):
                vlib.report(ctx, {"kind": "invariant-on-implementation-trace", "inv": t.violated}, {"seed": seed, "trace": str(tr)})
            else:
                raise Broken("QiLedgerTrace failed: %s\n%s" % (t.violated, (t.error or t.out)[-2000:]))
            if info["cross_backend_disagreements"] and not ctx.violations:
                raise Broken("back-ends disagree but the trace was accepted")
            shutil.rmtree(sub, ignore_errors=True)
        # 4. block path: blocks the node assembles from its own mempool (real worker) on a real chain
        sub = dbdir / "chain"; sub.mkdir()
        tr, info = zc.run_chaindrv(ctx, cdrv, "c01", ctx.seed, 30 if quick else 120, sub, extra=["-followers", "pebble", "-trimdepth", 4, "-chained", 6])
        for pr in info.get("problems") or []:
            if pr["kind"] in ("accepted-block-spends-missing-output", "accepted-block-spends-output-twice", "spent-output-still-present", "own-block-rejected", "follower-rejects-block", "follower-state-differs"):
                vlib.report(ctx, {"kind": pr["kind"]}, {"seed": ctx.seed, "problem": pr})
        ok, mm, t = zc.validate_trace(ctx, "c01", tr)
        if not ok and mm["what"] in ("SpentAtMostOnce", "AcceptedBlocksValid", "utxo"):
            vlib.report(ctx, {"kind": "chain-trace-" + mm["what"]}, {"seed": ctx.seed, "mismatch": mm})
        rows = vlib.read_ndjson(tr)
        qi_blocks = sum(1 for r in rows if r["op"] == "mine" and r["sp"])
        cov.update(traces_validated_against_impl=validated + (1 if ok else 0), random_tx_events=events, chain_blocks_with_qi_spends=qi_blocks,
                   samples=samples + zc.sample_events(tr, 1), exhaustive=True,
                   rule="every block-ending behaviour of the bounded QiLedger model (15-transaction universe: valid bases and single deviations) replayed through "
                        "the real core.ProcessQiTx with a real pending-view batch on leveldb, pebble, memorydb and the table wrapper, comparing verdict, reject "
                        "reason, fee, committed 'ut' scan and value conservation; seeded random universes validated by QiLedgerTrace.tla; plus a real chain whose "
                        "blocks are assembled by the node's worker from its mempool")
    finally:
        shutil.rmtree(dbdir, ignore_errors=True)
    zc.check_aborted(ctx)
    vlib.write_evidence(ctx, "model_checking", cov, [
        "Schnorr/MuSig2 primitives are trusted; base fee set to 0 in the unit driver (fee floor exercised on the chain path only)",
        "conversion / wrapping outputs and the mempool admission path are exercised on the chain path, not in the unit model",
    ])


def replay(ctx, path):
    j = json.loads(Path(path).read_text())
    ctx.seed = j["seed"]
    run(ctx)
