"""Hierarchical append layer (spec/Hier.tla, harness/cmd/hierdrv): the three block trees, the termini each level records,
the previous-coincidence reference check (core/slice.go pcrc) and the manifests dominant blocks commit to.
Used as a layer of C04 (the manifests / the no-twist rule are what makes 'delivered exactly once, in the order fixed by the
dominant chain, also across reorganisations at any level' hold): run_layer(ctx, cov) reports real-code deviations through vlib.report."""
import json, random
import vlib
from vlib import Broken

# which deviations of the real node from the specification are violations of C04 (everything else is reported as spec drift -> broken check)
PROPERTY_KINDS = {
    "verdict": "a block whose dominant parents are not ancestors of its own-chain parent (twisted hierarchy) was accepted, or a consistent block refused",
    "refused-block-has-termini": "a refused block left termini behind (it counts as appended for later blocks)",
    "zone-manifest": "the zone's manifest (zone blocks a dominant block confirms) differs from the chain segment since the previous coincident block",
    "region-view-sub-manifest": "the sub-manifest committed by the region view of a block differs from the zone chain segment it confirms",
    "prime-view-sub-manifest": "the sub-manifest committed by the prime view of a block differs from the region chain segment it confirms",
    "zone-dom-terminus": "zone termini do not point at the nearest region-coincident ancestor",
    "region-dom-terminus": "region termini do not point at the nearest prime-coincident ancestor",
    "region-sub-terminus": "region sub terminus is not the block itself",
    "prime-sub-terminus": "prime sub terminus is not the block itself",
    "zone-termini": "termini record missing", "region-termini": "termini record missing", "prime-termini": "termini record missing",
}


def behaviours(ctx, exempt, nblocks):
    name = "MCHier_emit_%s.cfg" % ("TRUE" if exempt else "FALSE")
    r = vlib.tlc_must_pass(ctx, "Hier", name, workers=4, timeout=1800, tag="HierEmit%s" % exempt)
    seen, out = set(), []
    for s in r.printed:
        if s in seen:
            continue
        seen.add(s)
        h = json.loads(s)
        if len(h) == nblocks:
            out.append(s)
    return out, r


def run_layer(ctx, cov):
    quick = ctx.quick
    drv = vlib.go_build("hierdrv")
    states = 0
    if not quick:   # 4 blocks besides the origin; the quick tier checks the same invariants on the 3-block emit runs below
        states += vlib.tlc_must_pass(ctx, "Hier", "MCHier_code.cfg", workers=8, timeout=1800, tag="HierCode").distinct
        states += vlib.tlc_must_pass(ctx, "Hier", "MCHier_strict.cfg", workers=8, timeout=1800, tag="HierStrict").distinct
    lead = vlib.tlc(ctx, "Hier", "MCHier_leadTwist.cfg", workers=4, timeout=900, tag="HierLead")
    if lead.violated != "NoTwist":
        raise Broken("Hier.tla: with the genesis exemption as coded TLC no longer finds the twisted hierarchy (spec drift)")
    rnd = random.Random(ctx.seed)
    total, steps, appended, refused = 0, 0, 0, 0
    samples = []
    for exempt, base in ((False, 1), (True, 0)):
        behs, er = behaviours(ctx, exempt, 3)
        states += er.distinct
        if len(behs) < 300:
            raise Broken("Hier emit produced only %d behaviours" % len(behs))
        if quick:
            rnd.shuffle(behs)
            behs = behs[:110]
        f = ctx.work / ("hier-beh-%d.ndjson" % base)
        f.write_text("\n".join(behs) + "\n")
        out = ctx.work / ("hier-res-%d.json" % base)
        p = vlib.run([drv, "replay", "-in", f, "-out", out, "-base", base], timeout=3000)
        if p.returncode != 0:
            raise Broken("hierdrv failed (%d): %s\n%s" % (p.returncode, p.stdout[-1200:], p.stderr[-1500:]))
        j = json.loads(out.read_text())
        if j["behaviours"] != len(behs):
            raise Broken("hierdrv replayed %d of %d behaviours" % (j["behaviours"], len(behs)))
        st = j["stats"]
        if st.get("unrealised-sethead", 0) > len(behs) // 10:
            raise Broken("hierdrv: %d behaviours could not be realised (pending header)" % st["unrealised-sethead"])
        total += j["behaviours"]; steps += st.get("steps", 0); appended += st.get("blocks-appended", 0); refused += st.get("verdict-terminus", 0)
        for m in j["mismatches"] or []:
            if m["kind"] not in PROPERTY_KINDS:
                raise Broken("hierdrv: node and Hier.tla disagree outside the property (%s): %s" % (m["kind"], json.dumps(m)[:600]))
            vlib.report(ctx, {"kind": "hier-" + m["kind"], "regime": "genesis" if exempt else "strict"},
                        {"layer": "hier", "what": PROPERTY_KINDS[m["kind"]], "mismatch": m, "behaviour": json.loads(behs[m["behaviour"]]),
                         "cmd": "hierdrv replay -base %d" % base})
        if j.get("samples"):
            samples.append({"regime": "genesis-exempt" if exempt else "strict", "behaviour": [
                {k: s[k] for k in ("b", "order", "zp", "rp", "pp", "verdict")} for s in j["samples"][0]["behaviour"]]})
    if refused < 15 or appended < 80:
        raise Broken("hier layer vacuous: %d refusals, %d appended" % (refused, appended))
    cov.update(hier_model_states=states, hier_behaviours_replayed=total, hier_steps_compared=steps,
               hier_blocks_appended=appended, hier_twisted_blocks_refused=refused, hier_samples=samples,
               hier_lead="with the genesis exemption of pcrc (no reference check while the parent's dom terminus is genesis) TLC finds an accepted "
                         "twisted block next to genesis (invariant NoTwist); the real node accepts the same blocks (replayed, regime base=0) - "
                         "recorded as an observation outside the listed properties (possible only while a chain has had no coincident block since genesis)")
