"""C08 — a block is sealed only by work on exactly its contents (spec/Header.tla part "seal", harness/cmd/hdrdrv seal)."""
import json
from pathlib import Path
import vlib
from vlib import Broken

ASSUMPTIONS = [
    "hashes are collision free (the specification treats a hash as its content); blake3, sha256, scrypt, protobuf, MuSig2 and the ethash-style "
    "cache generation are trusted libraries",
    "the exact boundary classes of the target comparison (hash = target-1, target, target+1, 0, 2^256-1; difficulty 0, 1, 2, 2^255, 2^256-1, 2^256) "
    "are driven with a consensus.Engine whose proof-of-work function returns the chosen hash (verifySeal, CalcOrder, CheckIfValidWorkShare, "
    "UncleWorkShareClassification, CalcWorkShareThreshold are the real code); real engines reach the tightest achievable boundaries only "
    "(difficulty chosen from the found hash)",
    "blake3 and progpow are sealed by real nonce search (progpow in light mode, epoch 0); kawpow uses recorded Ravencoin main-net blocks as donor "
    "headers: the recorded NONCE yields a pow hash below the target of the recorded bits under the node's byte-order convention, the mix hash is "
    "taken from the node's miner-side function because the repository's recorded mix hashes are for the opposite byte order of the header hash",
    "SHA-256d and scrypt donor headers are mined offline at share difficulty ~1000; AuxTemplate signatures are made with a harness quorum whose "
    "public keys replace params.MuSig2PublicKeys (configuration)",
    "AuxPoW bindings are judged through HeaderChain.VerifyHeader (kawpow block) and HeaderChain.VerifyUncles (sha/scrypt share) on a real post-fork "
    "chain inside the progpow transition window; body bindings through Slice.Append (ValidateBody) and SanityCheckWorkObjectBlockViewBody",
    "post-fork work-share classification thresholds (CalculateKawpowShareDiff) are outside the table; only the pre-fork thresholds 2^3 / 2^WorkShareThreshold are",
]


def emit_cases(ctx, cfg, tag):
    r = vlib.tlc_must_pass(ctx, "MCHeader", cfg, workers=8, timeout=1500, tag=tag)
    if len(r.printed) < 500:
        raise Broken("TLC emitted only %d cases" % len(r.printed))
    return r


def table(printed):
    t = {}
    for s in printed:
        h = json.loads(s)
        last = h[-1]
        key = (len(h), last["op"], last["kind"], last["fork"], last["dc"], last["hc"], last["f"], last["fix"])
        t[key] = json.dumps(last["res"], sort_keys=True)
    return t


def signature(m):
    c = m["case"]
    if m["got"].startswith("panic") and c["dc"] == "0":
        return {"kind": "panic", "class": "difficulty-0"}
    if m["got"].startswith("panic") and c["dc"] == "1" and m["entry"] == "CalcOrder":
        return {"kind": "panic", "class": "calcorder-difficulty-1"}
    return {"kind": "seal", "pow": c["kind"], "op": c["op"], "f": c["f"], "fix": c["fix"], "entry": m["entry"].split("(")[0]}


def run_driver(ctx, drv, cases, fork, seed, tag):
    out = ctx.work / ("seal-%s.json" % tag)
    p = vlib.run([drv, "seal", "-in", cases, "-out", out, "-fork", fork, "-seed", seed], timeout=3000)
    if p.returncode != 0:
        raise Broken("hdrdrv seal %s failed (%d): %s\n%s" % (tag, p.returncode, p.stdout[-1500:], p.stderr[-2500:]))
    return json.loads(out.read_text())


def run(ctx):
    quick = ctx.quick
    drv = vlib.go_build("hdrdrv")
    # 1. the case table: TLC explores every case of the bounded table and checks the C08 invariants on it
    r = emit_cases(ctx, "MCHeader_seal.cfg", "seal-w8")
    vlib.log("TLC seal: %d cases, %d distinct states, %.0fs" % (len(r.printed), r.distinct, r.wall))
    cov = {"tlc_cases": len(r.printed), "tlc_states": r.distinct}
    if not quick:
        # every verdict is invariant in the word size of the model
        r2 = emit_cases(ctx, "MCHeader_seal_w12.cfg", "seal-w12")
        t1, t2 = table(r.printed), table(r2.printed)
        if t1 != t2:
            diff = [k for k in t1 if t2.get(k) != t1[k]][:5]
            raise Broken("verdict table depends on W: %s" % diff)
        cov["verdicts_invariant_in_W"] = [8, 12]
    cases = ctx.work / "cases.ndjson"
    cases.write_text("\n".join(r.printed) + "\n")
    # 2. replay on the real code, one process per side of the KawPow fork
    evaluations, by_entry, by_kind, notes, samples, verdicts = 0, {}, {}, {}, [], set()
    seeds = [ctx.seed] if quick else [ctx.seed * 10 + i for i in range(5)]
    for sd in seeds:
        for fork in ("pre", "post"):
            j = run_driver(ctx, drv, cases, fork, sd, "%s-%d" % (fork, sd))
            evaluations += j["compared"]
            for k, v in j["by_entry"].items():
                by_entry[k] = by_entry.get(k, 0) + v
            for k, v in j["by_kind"].items():
                by_kind[k] = by_kind.get(k, 0) + v
            for k, v in (j["notes"] or {}).items():
                notes[k] = notes.get(k, 0) + v
            if j["skipped"]:
                raise Broken("driver skipped cases: %s" % json.dumps(j["skipped"])[:800])
            for s in j["samples"] or []:
                verdicts.add((s["entry"].split("(")[0], s["verdict"][:12]))
                if len(samples) < 6:
                    samples.append(s)
            for m in j["mismatches"] or []:
                vlib.report(ctx, signature(m), {"fork": fork, "seed": sd, "behaviour": [m["case"]], "entry": m["entry"], "want": m["want"], "got": m["got"]})
    need = {"stub", "blake3", "blake3-chain", "progpow", "kawpow", "kawpow-vector", "sha", "scrypt"}
    if not need <= set(by_kind):
        raise Broken("kinds not driven: %s" % sorted(need - set(by_kind)))
    for e in ("VerifySeal", "CalcOrder", "VerifyHeader(auxPow)", "VerifyUncles(auxPow)", "Slice.Append(ValidateBody)", "SealHash=oracle",
              "UncleWorkShareClassification", "CheckIfValidWorkShare", "CalcWorkShareThreshold(3)"):
        if by_entry.get(e, 0) == 0:
            raise Broken("entry point never compared: " + e)
    cov.update(evaluations=evaluations, distinct_nontrivial=len(by_entry), by_entry=by_entry, cases_by_kind=by_kind, notes=notes,
               samples=samples + [{"case_from_TLC": json.loads(r.printed[len(r.printed) // 2])}],
               rule="every case of the TLC-checked table (Seal x kind x fork side x difficulty class x hash class; then one of: each sealed work-object "
                    "header field changed, headerHash changed, each of the 46 body-header fields changed with/without recomputed headerHash, each body "
                    "component swapped with/without recomputed root and headerHash, each AuxPoW part changed with/without re-mined donor header, seal "
                    "reused for a header differing in one field) replayed on the real entry points; expected verdicts from the specification, hashes "
                    "compared with an independent transcription of SealEncode / Header.SealEncode")
    # the body is bound into the sealed header through DeriveSha roots (transactions, outbound ETXs, uncles, manifest, interlink): a root that
    # does not commit to EVERY element of its list lets one seal serve two bodies.  Lists around the index-encoding boundaries (126..130, 255..257)
    # and random ones: the streaming root must be the root of the reference trie of index -> item (independent yellow-paper implementation)
    tdrv = vlib.go_build("triedrv")
    nl = 40 if quick else 400
    p = vlib.run([tdrv, "derive", "-seed", ctx.seed, "-n", nl], timeout=3000, check=True)
    dj = json.loads(p.stdout.strip().splitlines()[-1])
    if dj["lists"] != nl:
        raise Broken("derive ran %d of %d lists" % (dj["lists"], nl))
    for m in dj["mismatches"] or []:
        vlib.report(ctx, {"kind": "body-root-does-not-commit-to-the-whole-list", "len": m.get("len")}, {"derive": m, "driver_seed": ctx.seed, "n": nl})
    cov.update(body_root_lists=dj["lists"], body_root_items=dj["items"])
    vlib.write_evidence(ctx, "exploration", cov, ASSUMPTIONS)


def replay(ctx, path):
    j = json.loads(Path(path).read_text())
    rp = j["replay"]
    drv = vlib.go_build("hdrdrv")
    r = emit_cases(ctx, "MCHeader_seal.cfg", "seal-w8")
    c = rp["behaviour"][0]
    keep = []
    for s in r.printed:
        h = json.loads(s)
        last = h[-1]
        if all(last[k] == c[k] for k in ("op", "kind", "fork", "dc", "hc", "f", "fix")) or (len(h) == 1 and last["kind"] == c["kind"] and last["fork"] == c["fork"]):
            keep.append(s)
    cases = ctx.work / "cases.ndjson"
    cases.write_text("\n".join(keep) + "\n")
    res = run_driver(ctx, drv, cases, rp["fork"], rp.get("seed", 1), "replay")
    for m in res["mismatches"] or []:
        vlib.report(ctx, signature(m), {"fork": rp["fork"], "seed": rp.get("seed", 1), "behaviour": [m["case"]], "entry": m["entry"], "want": m["want"], "got": m["got"]})
    print(json.dumps({"compared": res["compared"], "mismatches": len(res["mismatches"] or [])}))
