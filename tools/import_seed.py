#!/usr/bin/env python3
"""import_seed.py <worktree> <seed-name> <property> <detected true|false> "<detected_by>" "<ran>" — copy a confirmed seeded change into /verif/seeded."""
import json, shutil, sys
from pathlib import Path
wt, name, prop, detected, by, ran = sys.argv[1:7]
src = Path(wt) / "SEEDED" / name
dst = Path(__file__).resolve().parent.parent / "seeded" / ("%s-%s" % (prop, name))
dst.mkdir(parents=True, exist_ok=True)
for f in src.iterdir():
    shutil.copy(f, dst / f.name)
notes = (src / "notes.md").read_text() if (src / "notes.md").exists() else ""
meta = {"property": prop, "origin": "independent sub-agent that saw only the property text (scratch worktree, nothing from /verif)",
        "needs": notes[:1200], "detected": detected == "true", "detected_by": by, "ran": ran,
        "confirmed": "tools/confirm_seed.sh: demo passes without / fails with the change; builds; existing tests of the touched packages pass"}
(dst / "meta.json").write_text(json.dumps(meta, indent=1))
print("imported", dst)
