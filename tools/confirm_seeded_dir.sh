#!/bin/sh
# usage: confirm_seeded_dir.sh <seeded-dir> <package-dir for the demo> <test regex>
# Re-confirms a kept seeded change from /verif/seeded in a fresh scratch worktree of /repo.
set -u
D=$(cd "$1" && pwd); PKG=$2; RE=$3
WT=/tmp/confirm-$(basename "$D")
export GOFLAGS=-mod=mod GOPROXY=off GOSUMDB=off GOTOOLCHAIN=local
git -C /repo worktree add -q "$WT" HEAD || exit 2
cd "$WT"
cp "$D/demo_test.go.txt" "$PKG/zz_seed_demo_test.go"
echo "--- demo WITHOUT the change"; timeout 1500 go test -vet=off -count=1 -run "$RE" "./$PKG/" 2>&1 | tail -3
git apply "$D/patch.diff" || { echo "patch does not apply"; cd /; git -C /repo worktree remove --force "$WT"; exit 2; }
echo "--- build"; timeout 1500 go build ./... 2>&1 | tail -3
echo "--- demo WITH the change"; timeout 1500 go test -vet=off -count=1 -run "$RE" "./$PKG/" 2>&1 | tail -4
rm -f "$PKG/zz_seed_demo_test.go"
TOUCHED=$(git diff --name-only | xargs -n1 dirname | sort -u | sed 's#^#./#')
echo "--- existing tests of touched packages: $TOUCHED"; timeout 2400 go test -vet=off -count=1 $TOUCHED 2>&1 | tail -6
cd /; git -C /repo worktree remove --force "$WT"
